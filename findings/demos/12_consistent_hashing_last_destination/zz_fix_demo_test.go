package route

import (
	"testing"
	"time"

	"github.com/grafana/carbon-relay-ng/destination"
	"github.com/grafana/carbon-relay-ng/matcher"
)

func fixDemoDest(t *testing.T, addr string) *destination.Destination {
	// nothing listens on port 1: the destination runs, but stays offline and drops what it is given
	d, err := destination.New("demoCH", matcher.Matcher{}, addr, "", false, false, time.Second, time.Minute, 30000, 2000000, 10000, 200*1024*1024, 10000, time.Second, 500*time.Microsecond, 10*time.Microsecond)
	if err != nil {
		t.Fatal(err)
	}
	return d
}

// TestFixDemoConsistentHashingKeepsLastDestination: after 'delDest <route> 0' on a
// consistentHashing route with a single destination, the next metric for that
// route must not crash the relay (Dispatch runs in the goroutines of the
// inputs, which have no recover).
func TestFixDemoConsistentHashingKeepsLastDestination(t *testing.T) {
	r, err := NewConsistentHashing("demoCH", matcher.Matcher{}, []*destination.Destination{
		fixDemoDest(t, "127.0.0.1:1"),
		fixDemoDest(t, "127.0.0.2:1"),
	})
	if err != nil {
		t.Fatal(err)
	}
	defer r.Shutdown()

	dispatch := func() (panicked interface{}) {
		defer func() { panicked = recover() }()
		r.Dispatch([]byte("some.metric 1 1600000000"))
		return nil
	}

	// removing one of two destinations is fine
	if err := r.DelDestination(0); err != nil {
		t.Fatalf("removing 1 of the 2 destinations failed: %s", err)
	}
	if n := len(r.Snapshot().Dests); n != 1 {
		t.Fatalf("expected 1 destination to be left, got %d", n)
	}
	if p := dispatch(); p != nil {
		t.Fatalf("Dispatch with 1 destination left panicked: %v", p)
	}

	// removing the last one
	err = r.DelDestination(0)
	n := len(r.Snapshot().Dests)
	p := dispatch()
	switch {
	case p != nil:
		t.Errorf("DelDestination of the last destination returned err=%v and left %d destinations; the next Dispatch panicked: %v", err, n, p)
	case err == nil:
		t.Errorf("DelDestination of the last destination was not refused (%d destinations left)", n)
	case n != 1:
		t.Errorf("DelDestination returned an error (%s) but the route has %d destinations", err, n)
	default:
		t.Logf("refused: %s", err)
	}
}
