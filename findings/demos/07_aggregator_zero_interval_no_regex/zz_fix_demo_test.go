package aggregator

import (
	"fmt"
	"os"
	"os/exec"
	"strings"
	"testing"
	"time"

	"github.com/grafana/carbon-relay-ng/matcher"
)

// The defects crash the whole process from a background goroutine, so each
// scenario runs in a child process (this same test binary, re-executed with
// FIXDEMO_SCENARIO set). The child either reports that the constructor refused
// the configuration, or uses the aggregator like the relay would.

func fixDemoChild(scenario string) {
	InitMetrics()
	out := make(chan []byte, 100)
	var agg *Aggregator
	var err error
	switch scenario {
	case "interval0":
		// addAgg sum regex=^servers\.(.*) out.$1 0 10
		m, merr := matcher.New("", "", "", "", `^servers\.(.*)`, "")
		if merr != nil {
			panic(merr)
		}
		agg, err = New("sum", m, "out.$1", false, 0, 10, false, out)
	case "noregex":
		// [[aggregation]] section with prefix but without regex
		m, merr := matcher.New("servers.", "", "", "", "", "")
		if merr != nil {
			panic(merr)
		}
		agg, err = New("sum", m, "out", false, 10, 10, false, out)
	}
	if err != nil {
		fmt.Println("FIXDEMO constructor refused:", err)
		os.Exit(0)
	}
	fmt.Println("FIXDEMO constructor accepted the configuration, now sending a metric")
	ts := uint32(time.Now().Unix())
	agg.AddMaybe([][]byte{[]byte("servers.web1.cpu"), []byte("1"), []byte(fmt.Sprint(ts))}, 1, ts)
	time.Sleep(time.Second)
	fmt.Println("FIXDEMO survived")
	os.Exit(0)
}

func TestFixDemoAggregatorBadConfigRejected(t *testing.T) {
	if scenario := os.Getenv("FIXDEMO_SCENARIO"); scenario != "" {
		fixDemoChild(scenario)
		return
	}
	for _, scenario := range []string{"interval0", "noregex"} {
		cmd := exec.Command(os.Args[0], "-test.run=^TestFixDemoAggregatorBadConfigRejected$")
		cmd.Env = append(os.Environ(), "FIXDEMO_SCENARIO="+scenario)
		outBytes, err := cmd.CombinedOutput()
		out := string(outBytes)
		if len(out) > 1200 {
			out = out[:1200] + "\n[...]"
		}
		switch {
		case err != nil:
			t.Errorf("scenario %s: process crashed (%v). output:\n%s", scenario, err, out)
		case !strings.Contains(out, "FIXDEMO constructor refused"):
			t.Errorf("scenario %s: configuration was not refused. output:\n%s", scenario, out)
		default:
			t.Logf("scenario %s: %s", scenario, strings.TrimSpace(out))
		}
	}
}
