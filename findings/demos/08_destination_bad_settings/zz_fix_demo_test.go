package destination

import (
	"fmt"
	"io"
	"io/ioutil"
	"net"
	"os"
	"os/exec"
	"strings"
	"testing"
	"time"

	"github.com/grafana/carbon-relay-ng/matcher"
)

// The defects crash the whole process from goroutines of the running
// destination, so each scenario runs in a child process (this same test binary,
// re-executed with FIXDEMO_SCENARIO set). The child creates the destination with
// one bad setting; if the constructor accepts it, the destination is run against
// a loopback listener, like the relay would after 'addRoute ... flush=0' etc.

var fixDemoScenarios = []string{"flush=0", "reconn=0", "iobuf=0", "connbuf=-1", "spool=true spoolsyncperiod=0", "spool=true spoolbuf=-1"}

func fixDemoChild(scenario string) {
	ln, err := net.Listen("tcp", "127.0.0.1:0")
	if err != nil {
		panic(err)
	}
	go func() {
		for {
			c, err := ln.Accept()
			if err != nil {
				return
			}
			go io.Copy(ioutil.Discard, c)
		}
	}()
	spoolDir := os.Getenv("FIXDEMO_SPOOLDIR") // made, and cleaned up, by the parent

	// the defaults of the addRoute / addDest commands
	spool := false
	periodFlush := time.Second
	periodReConn := 10 * time.Second
	connBufSize := 30000
	ioBufSize := 2000000
	spoolBufSize := 10000
	spoolSyncPeriod := time.Second

	switch scenario {
	case "flush=0":
		periodFlush = 0
	case "reconn=0":
		periodReConn = 0
	case "iobuf=0":
		ioBufSize = 0
	case "connbuf=-1":
		connBufSize = -1
	case "spool=true spoolsyncperiod=0":
		spool = true
		spoolSyncPeriod = 0
	case "spool=true spoolbuf=-1":
		spool = true
		spoolBufSize = -1
	default:
		panic("unknown scenario " + scenario)
	}

	d, err := New("demo", matcher.Matcher{}, ln.Addr().String(), spoolDir, spool, false, periodFlush, periodReConn, connBufSize, ioBufSize, spoolBufSize, 200*1024*1024, 10000, spoolSyncPeriod, 500*time.Microsecond, 10*time.Microsecond)
	if err != nil {
		fmt.Println("FIXDEMO constructor refused:", err)
		os.Exit(0)
	}
	fmt.Println("FIXDEMO constructor accepted the configuration, now running the destination")
	d.Run()
	time.Sleep(time.Second)
	fmt.Println("FIXDEMO survived")
	os.Exit(0)
}

func TestFixDemoDestinationBadSettingsRejected(t *testing.T) {
	if scenario := os.Getenv("FIXDEMO_SCENARIO"); scenario != "" {
		fixDemoChild(scenario)
		return
	}
	for _, scenario := range fixDemoScenarios {
		cmd := exec.Command(os.Args[0], "-test.run=^TestFixDemoDestinationBadSettingsRejected$")
		cmd.Env = append(os.Environ(), "FIXDEMO_SCENARIO="+scenario, "FIXDEMO_SPOOLDIR="+t.TempDir())
		outBytes, err := cmd.CombinedOutput()
		out := string(outBytes)
		if i := strings.Index(out, "\ngoroutine "); i >= 0 {
			// keep the panic message and the first stack only
			rest := out[i+1:]
			if j := strings.Index(rest, "\n\n"); j >= 0 {
				out = out[:i+1] + rest[:j] + "\n[...]"
			}
		}
		switch {
		case err != nil:
			t.Errorf("scenario %q: process crashed (%v). output:\n%s", scenario, err, out)
		case !strings.Contains(out, "FIXDEMO constructor refused"):
			t.Errorf("scenario %q: configuration was not refused. output:\n%s", scenario, out)
		default:
			t.Logf("scenario %q: %s", scenario, strings.TrimSpace(out))
		}
	}
}
