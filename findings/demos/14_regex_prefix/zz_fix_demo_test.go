package matcher

import (
	"regexp"
	"testing"
)

// The static prefix that is derived from a regex is only a shortcut: it may never change what
// Match / PreMatch decide. Before the fix, "^ab?c" gave the prefix "ab" (so "ac.x" was refused
// although the regex matches it) and "^foo|bar" gave "foo" (so "xbar" was refused as regex and
// let through as notRegex).
func TestFixDemoRegexPrefixShortcutIsSound(t *testing.T) {
	cases := []struct{ regex, name string }{
		{`^ab?c`, "ac.x"},
		{`^abc*`, "ab.x"},
		{`^ab{0,1}c`, "ac.x"},
		{`^a\.?b`, "ab"},
		{`^foo|bar`, "xbar"},
		{`^servers\.|^hosts\.`, "hosts.a"},
	}
	for _, c := range cases {
		want := regexp.MustCompile(c.regex).MatchString(c.name)
		m, err := New("", "", "", "", c.regex, "")
		if err != nil {
			t.Fatal(err)
		}
		if got := m.Match([]byte(c.name)); got != want {
			t.Errorf("regex=%q Match(%q) = %v, the regex itself says %v", c.regex, c.name, got, want)
		}
		if want && !m.PreMatch([]byte(c.name)) {
			t.Errorf("regex=%q PreMatch(%q) = false although the regex matches", c.regex, c.name)
		}
		n, err := New("", "", "", "", "", c.regex)
		if err != nil {
			t.Fatal(err)
		}
		if got := n.Match([]byte(c.name)); got != !want {
			t.Errorf("notRegex=%q Match(%q) = %v, want %v", c.regex, c.name, got, !want)
		}
	}
	// the shortcut still does its job where it is sound
	for regex, want := range map[string]string{`^abc`: "abc", `^a\.b.*`: "a.b", `^ab+c`: "ab", `abc`: "", `^ab?`: "a"} {
		if got := string(regexToPrefix(regex)); got != want {
			t.Errorf("regexToPrefix(%q) = %q, want %q", regex, got, want)
		}
	}
}
