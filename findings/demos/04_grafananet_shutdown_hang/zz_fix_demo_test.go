package route

import (
	"fmt"
	"io"
	"io/ioutil"
	"net/http"
	"net/http/httptest"
	"path/filepath"
	"sync/atomic"
	"testing"
	"time"

	"github.com/grafana/carbon-relay-ng/matcher"
)

// TestFixDemoGrafanaNetShutdownReturns: Shutdown of a grafanaNet route must
// signal all of its workers, wait for them to flush, and then return.
// (table.Shutdown and table.DelRoute call it while holding the table lock)
func TestFixDemoGrafanaNetShutdownReturns(t *testing.T) {
	var metricPosts int32
	srv := httptest.NewServer(http.HandlerFunc(func(w http.ResponseWriter, r *http.Request) {
		io.Copy(ioutil.Discard, r.Body)
		if r.URL.Path == "/metrics" {
			atomic.AddInt32(&metricPosts, 1)
		}
		w.WriteHeader(200)
	}))
	defer srv.Close()

	dir := t.TempDir()
	schemasFile := filepath.Join(dir, "storage-schemas.conf")
	aggregationFile := filepath.Join(dir, "storage-aggregation.conf")
	if err := ioutil.WriteFile(schemasFile, []byte("[default]\npattern = .*\nretentions = 10s:1d\n"), 0644); err != nil {
		t.Fatal(err)
	}
	if err := ioutil.WriteFile(aggregationFile, []byte("[default]\npattern = .*\nxFilesFactor = 0.9\n"), 0644); err != nil {
		t.Fatal(err)
	}

	cfg, err := NewGrafanaNetConfig(srv.URL+"/metrics", "apikey", schemasFile, aggregationFile)
	if err != nil {
		t.Fatal(err)
	}
	cfg.Concurrency = 4
	cfg.BufSize = 400
	cfg.FlushMaxWait = time.Hour // only the shutdown flushes
	cfg.Timeout = 2 * time.Second

	r, err := NewGrafanaNet("demo", matcher.Matcher{}, cfg)
	if err != nil {
		t.Fatal(err)
	}
	gn := r.(*GrafanaNet)
	outBefore := gn.numOut.Count()

	const numMetrics = 40 // spread over all 4 workers
	for i := 0; i < numMetrics; i++ {
		r.Dispatch([]byte(fmt.Sprintf("some.metric.number%d 1 1600000000", i)))
	}

	// wait until the workers have taken everything out of their input queues,
	// so that all 40 metrics sit in the workers' flush buffers
	for start := time.Now(); gn.numBuffered.Value() != 0; time.Sleep(5 * time.Millisecond) {
		if time.Since(start) > 3*time.Second {
			t.Fatalf("workers did not consume their input, %d still queued", gn.numBuffered.Value())
		}
	}

	done := make(chan error, 1)
	go func() { done <- r.Shutdown() }()

	select {
	case err := <-done:
		if err != nil {
			t.Fatalf("Shutdown returned error: %s", err)
		}
	case <-time.After(4 * time.Second):
		t.Fatalf("GrafanaNet.Shutdown did not return within 4s (%d of %d buffered metrics were flushed by then)", gn.numOut.Count()-outBefore, numMetrics)
	}

	if flushed := gn.numOut.Count() - outBefore; flushed != numMetrics {
		t.Errorf("Shutdown returned but only %d of %d buffered metrics were flushed", flushed, numMetrics)
	}
	if atomic.LoadInt32(&metricPosts) == 0 {
		t.Errorf("nothing was posted to the metrics endpoint")
	}
}
