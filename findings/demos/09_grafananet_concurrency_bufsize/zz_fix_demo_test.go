package route

import (
	"io/ioutil"
	"path/filepath"
	"testing"

	"github.com/grafana/carbon-relay-ng/matcher"
)

// TestFixDemoGrafanaNetRejectsBadConcurrencyAndBufSize:
// 'addRoute grafanaNet ... concurrency=0' (or a negative concurrency / bufSize in the
// config file) must be answered with an error, not with a panic in the caller
// (the admin interface handler, or startup).
func TestFixDemoGrafanaNetRejectsBadConcurrencyAndBufSize(t *testing.T) {
	dir := t.TempDir()
	schemasFile := filepath.Join(dir, "storage-schemas.conf")
	aggregationFile := filepath.Join(dir, "storage-aggregation.conf")
	if err := ioutil.WriteFile(schemasFile, []byte("[default]\npattern = .*\nretentions = 10s:1d\n"), 0644); err != nil {
		t.Fatal(err)
	}
	if err := ioutil.WriteFile(aggregationFile, []byte("[default]\npattern = .*\nxFilesFactor = 0.9\n"), 0644); err != nil {
		t.Fatal(err)
	}

	type setting struct {
		name        string
		concurrency int
		bufSize     int
	}
	for _, s := range []setting{
		{"concurrency=0", 0, 1000},
		{"concurrency=-1", -1, 1000},
		{"bufSize=-1000", 2, -1000},
	} {
		// connection refused: nothing is listening. irrelevant for this test
		cfg, err := NewGrafanaNetConfig("http://127.0.0.1:1/metrics", "apikey", schemasFile, aggregationFile)
		if err != nil {
			t.Fatal(err)
		}
		cfg.Concurrency = s.concurrency
		cfg.BufSize = s.bufSize

		var r Route
		var panicked interface{}
		func() {
			defer func() { panicked = recover() }()
			r, err = NewGrafanaNet("demo", matcher.Matcher{}, cfg)
		}()

		switch {
		case panicked != nil:
			t.Errorf("%s: NewGrafanaNet panicked: %v", s.name, panicked)
		case err == nil:
			// what happens to the first metric that is routed there
			// (in the relay this runs in the goroutine of an input connection, without recover)
			func() {
				defer func() { panicked = recover() }()
				r.Dispatch([]byte("some.metric 1 1600000000"))
			}()
			t.Errorf("%s: NewGrafanaNet accepted the setting; Dispatch of a metric to the route then panicked with: %v", s.name, panicked)
		default:
			t.Logf("%s: refused: %s", s.name, err)
		}
	}
}
