package aggregator

import (
	"testing"
	"time"

	"github.com/grafana/carbon-relay-ng/matcher"
)

// TestFixDemoAggregationHonoursNotRegex: an aggregation configured with
// regex=^servers\.([^.]+)\.cpu$ notRegex=^servers\.canary must leave the canary
// servers alone: not aggregate them, and (with dropRaw=true) not drop them.
func TestFixDemoAggregationHonoursNotRegex(t *testing.T) {
	InitMetrics() // as the relay does at startup

	m, err := matcher.New("", "", "", "", `^servers\.([^.]+)\.cpu$`, `^servers\.canary`)
	if err != nil {
		t.Fatal(err)
	}

	now := func() time.Time { return time.Unix(1000, 0) }
	tick := make(chan time.Time)
	out := make(chan []byte, 10)

	// inBuf 0: AddMaybe returns only when the aggregator goroutine took the point
	agg, err := NewMocked("sum", m, "agg.all.cpu", false, 10, 30, true, out, 0, now, tick)
	if err != nil {
		t.Fatal(err)
	}
	defer agg.Shutdown()

	add := func(name string, val float64) bool {
		return agg.AddMaybe([][]byte{[]byte(name), []byte("1"), []byte("1000")}, val, 1000)
	}

	if dropped := add("servers.web1.cpu", 1); !dropped {
		t.Errorf("servers.web1.cpu matches the aggregation, with dropRaw=true it should be dropped from the raw stream")
	}
	if dropped := add("servers.canary1.cpu", 100); dropped {
		t.Errorf("servers.canary1.cpu is excluded by notRegex but was dropped (dropRaw) by the aggregator")
	}
	if dropped := add("servers.web2.cpu", 2); !dropped {
		t.Errorf("servers.web2.cpu matches the aggregation, with dropRaw=true it should be dropped from the raw stream")
	}

	// make the aggregator flush the bucket of ts 1000
	select {
	case tick <- time.Unix(1100, 0):
	case <-time.After(3 * time.Second):
		t.Fatal("aggregator did not take the tick")
	}
	select {
	case line := <-out:
		if string(line) != "agg.all.cpu 3.000000 1000" {
			t.Errorf("expected sum of web1 and web2 only (agg.all.cpu 3.000000 1000), got %q", line)
		}
	case <-time.After(3 * time.Second):
		t.Fatal("no aggregate was emitted")
	}
}
