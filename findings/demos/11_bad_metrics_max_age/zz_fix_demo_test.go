package table

import (
	"fmt"
	"os"
	"os/exec"
	"strings"
	"testing"
	"time"

	"github.com/grafana/carbon-relay-ng/validate"
)

// The defect crashes the whole process from the goroutine of the bad metrics
// tracker, so each scenario runs in a child process (this same test binary,
// re-executed with FIXDEMO_MAXAGE set). The child does what the relay does at
// startup with the bad_metrics_max_age setting: NewTableConfig, then New.

func fixDemoChild(maxAge string) {
	cfg, err := NewTableConfig("", maxAge, validate.LevelLegacy{}, validate.LevelM20{}, false)
	if err != nil {
		fmt.Println("FIXDEMO NewTableConfig refused:", err)
		os.Exit(0)
	}
	fmt.Println("FIXDEMO NewTableConfig accepted the setting, now creating the table")
	New(cfg)
	time.Sleep(time.Second)
	fmt.Println("FIXDEMO survived")
	os.Exit(0)
}

func TestFixDemoBadMetricsMaxAgeRejected(t *testing.T) {
	if maxAge := os.Getenv("FIXDEMO_MAXAGE"); maxAge != "" {
		fixDemoChild(maxAge)
		return
	}

	// a sane value must of course still work
	if _, err := NewTableConfig("", "24h", validate.LevelLegacy{}, validate.LevelM20{}, false); err != nil {
		t.Fatalf("bad_metrics_max_age=24h refused: %s", err)
	}

	for _, maxAge := range []string{"0s", "-1h", "5ns"} {
		cmd := exec.Command(os.Args[0], "-test.run=^TestFixDemoBadMetricsMaxAgeRejected$")
		cmd.Env = append(os.Environ(), "FIXDEMO_MAXAGE="+maxAge)
		outBytes, err := cmd.CombinedOutput()
		out := string(outBytes)
		if i := strings.Index(out, "\ngoroutine "); i >= 0 {
			// keep the panic message and the first stack only
			rest := out[i+1:]
			if j := strings.Index(rest, "\n\n"); j >= 0 {
				out = out[:i+1] + rest[:j] + "\n[...]"
			}
		}
		switch {
		case err != nil:
			t.Errorf("bad_metrics_max_age=%s: process crashed (%v). output:\n%s", maxAge, err, out)
		case !strings.Contains(out, "FIXDEMO NewTableConfig refused"):
			t.Errorf("bad_metrics_max_age=%s: setting was not refused. output:\n%s", maxAge, out)
		default:
			t.Logf("bad_metrics_max_age=%s: %s", maxAge, strings.TrimSpace(out))
		}
	}
}
