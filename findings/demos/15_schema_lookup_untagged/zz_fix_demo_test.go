package route

import (
	"regexp"
	"testing"

	"github.com/grafana/carbon-relay-ng/persister"
)

// storage-schemas rules are matched against the series name as graphite presents it. Before the
// fix an untagged series was looked up as "name;" (with a trailing ';'), so a '$'-anchored pattern
// never matched it and the series got the interval of a later (catch-all) rule.
func TestFixDemoSchemaLookupUntaggedSeries(t *testing.T) {
	mk := func(name, pattern, retentions string, prio int64) persister.Schema {
		s := persister.Schema{Name: name, RetentionStr: retentions, Priority: prio}
		s.Retentions, _ = persister.ParseRetentionDefs(retentions)
		s.Pattern = regexp.MustCompile(pattern)
		return s
	}
	schemas := persister.WhisperSchemas{
		mk("cpu", `^servers\.[^.;]+\.cpu$`, "1s:1d", 2),
		mk("tagged_cpu", `^cpu;.*host=`, "5s:1d", 1),
		mk("default", `.*`, "60s:1d", 0),
	}
	for line, want := range map[string]int{
		"servers.web01.cpu 1.5 1600000000":      1,  // anchored rule, untagged series
		"cpu;host=web01;dc=us 1.5 1600000000":   5,  // tagged series: name;sorted tags
		"servers.web01.cpu.idle 1.5 1600000000": 60, // only the catch-all matches
	} {
		md, err := parseMetric([]byte(line), schemas, 1)
		if err != nil {
			t.Fatal(err)
		}
		if md.Interval != want {
			t.Errorf("%q: interval %d, want %d (first matching storage-schemas rule)", line, md.Interval, want)
		}
	}
}
