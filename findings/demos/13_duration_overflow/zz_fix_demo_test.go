package imperatives

import (
	"fmt"
	"io/ioutil"
	"os"
	"os/exec"
	"path/filepath"
	"strings"
	"testing"
	"time"

	"github.com/grafana/carbon-relay-ng/table"
	"github.com/grafana/carbon-relay-ng/validate"
	m20 "github.com/metrics20/go-metrics20/carbon20"
)

// Admin commands whose numeric argument passes the "> 0" checks but overflows when it is
// turned into a time.Duration: the constructor accepts it and a goroutine of the new object
// panics (integer divide by zero in clock.AlignedTick, or time.NewTicker's "non-positive
// interval"), which kills the relay. Every scenario runs in a child process.
var fixDemoOverflowScenarios = []string{
	// 2^55 seconds * 1e9 ns = 2^64 * 1953125 -> period 0 -> `adjusted % period`
	"addAgg sum regex=^demo\\. demo.out 36028797018963968 10",
	// 9223372036855 ms * 1e6 ns > MaxInt64 -> negative duration -> time.NewTicker panics
	"addRoute kafkaMdm demoK  127.0.0.1:1 topic none SCHEMAS bySeries 1 flushMaxWait=9223372036855",
}

func fixDemoOverflowChild(cmd string) {
	schemas := filepath.Join(os.Getenv("FIXDEMO_DIR"), "storage-schemas.conf")
	if err := ioutil.WriteFile(schemas, []byte("[default]\npattern = .*\nretentions = 10s:1d\n"), 0644); err != nil {
		panic(err)
	}
	cmd = strings.Replace(cmd, "SCHEMAS", schemas, 1)
	tc, err := table.NewTableConfig(os.Getenv("FIXDEMO_DIR"), "24h", validate.LevelLegacy{Level: m20.MediumLegacy}, validate.LevelM20{Level: m20.MediumM20}, false)
	if err != nil {
		panic(err)
	}
	tab := table.New(tc)
	err = Apply(tab, cmd)
	if err != nil {
		fmt.Println("FIXDEMO command refused:", err)
		os.Exit(0)
	}
	fmt.Println("FIXDEMO command accepted")
	time.Sleep(1500 * time.Millisecond)
	fmt.Println("FIXDEMO survived")
	os.Exit(0)
}

func TestFixDemoDurationOverflowRejected(t *testing.T) {
	if sc := os.Getenv("FIXDEMO_SCENARIO"); sc != "" {
		fixDemoOverflowChild(sc)
		return
	}
	for _, sc := range fixDemoOverflowScenarios {
		c := exec.Command(os.Args[0], "-test.run=^TestFixDemoDurationOverflowRejected$")
		c.Env = append(os.Environ(), "FIXDEMO_SCENARIO="+sc, "FIXDEMO_DIR="+t.TempDir())
		outB, err := c.CombinedOutput()
		out := string(outB)
		switch {
		case strings.Contains(out, "FIXDEMO command refused"):
			t.Logf("%q: refused with an error (ok)", sc)
		case err != nil:
			last := out
			if i := strings.Index(out, "panic:"); i >= 0 {
				last = out[i:]
				if j := strings.Index(last, "\n"); j > 0 {
					last = last[:j]
				}
			}
			t.Errorf("%q: command was accepted and the relay process died: %v: %s", sc, err, last)
		default:
			t.Errorf("%q: command was accepted (and nothing crashed within 1.5s): %s", sc, out)
		}
	}
}
