package route

import (
	"fmt"
	"io/ioutil"
	"os"
	"os/exec"
	"path/filepath"
	"strings"
	"sync"
	"sync/atomic"
	"testing"
	"time"

	"github.com/grafana/carbon-relay-ng/matcher"
	log "github.com/sirupsen/logrus"
)

// Several of these defects crash the whole process from the route's run()
// goroutine, so each scenario runs in a child process (this same test binary,
// re-executed with FIXDEMO_SCENARIO set). The child calls the constructor with
// one bad setting, and if it is accepted gives the route's goroutine a second.
//
// kafkaMdm and cloudWatch routes can be constructed without their service
// (they connect later, from run()). NewPubSub however contacts Google PubSub
// before it starts run(), and log.Fatal()s if that fails. For the scenario
// "pubsub flushMaxWait=0" the child therefore turns that log.Fatal into a panic
// that it recovers from (proving that the constructor got past its argument
// checks, i.e. did not refuse the value) and then calls run() on a PubSub with
// that setting, to show what the constructor would have started.

var fixDemoScenarios = []string{
	"kafkaMdm flushMaxWait=0",
	"kafkaMdm flushMaxNum=-1",
	"kafkaMdm bufSize=-1",
	"kafkaMdm without brokers",
	"cloudWatch flushMaxWait=0",
	"cloudWatch bufSize=-1",
	"pubsub bufSize=-1",
	"pubsub flushMaxWait=0",
}

type fixDemoFatal struct{}

func fixDemoChild(scenario string) {
	schemasFile := filepath.Join(os.Getenv("FIXDEMO_DIR"), "storage-schemas.conf")
	if err := ioutil.WriteFile(schemasFile, []byte("[default]\npattern = .*\nretentions = 10s:1d\n"), 0644); err != nil {
		panic(err)
	}
	// nothing listens there: connection refused
	brokers := []string{"127.0.0.1:1"}
	bufSize, flushMaxNum, flushMaxSize, flushMaxWait := 1000, 100, 1000, 500

	kafka := func() (Route, error) {
		return NewKafkaMdm("demo", matcher.Matcher{}, "topic", "snappy", schemasFile, "bySeries", brokers, bufSize, 1, flushMaxNum, flushMaxWait, 2000, false, false, false, "", "", false, "", "", "")
	}
	cloudWatch := func() (Route, error) {
		return NewCloudWatch("demo", matcher.Matcher{}, "", "us-east-1", "namespace", nil, bufSize, flushMaxSize, flushMaxWait, 60, false)
	}
	pubSub := func() (Route, error) {
		return NewPubSub("demo", matcher.Matcher{}, "project", "topic", "plain", "none", bufSize, flushMaxSize, flushMaxWait, false)
	}

	var err error
	switch scenario {
	case "kafkaMdm flushMaxWait=0":
		flushMaxWait = 0
		_, err = kafka()
	case "kafkaMdm flushMaxNum=-1":
		flushMaxNum = -1
		_, err = kafka()
	case "kafkaMdm bufSize=-1":
		bufSize = -1
		_, err = kafka()
	case "kafkaMdm without brokers":
		brokers = nil
		_, err = kafka()
	case "cloudWatch flushMaxWait=0":
		flushMaxWait = 0
		_, err = cloudWatch()
	case "cloudWatch bufSize=-1":
		bufSize = -1
		_, err = cloudWatch()
	case "pubsub bufSize=-1":
		bufSize = -1
		_, err = pubSub()
	case "pubsub flushMaxWait=0":
		flushMaxWait = 0
		log.StandardLogger().ExitFunc = func(int) { panic(fixDemoFatal{}) }
		reachedService := false
		func() {
			defer func() {
				if r := recover(); r != nil {
					if _, ok := r.(fixDemoFatal); !ok {
						panic(r)
					}
					reachedService = true
				}
			}()
			_, err = pubSub()
		}()
		if reachedService {
			fmt.Println("FIXDEMO NewPubSub did not refuse flushMaxWait=0: it went on to contact Google PubSub. This is the run() it would have started:")
			r := &PubSub{
				baseRoute:    baseRoute{sync.Mutex{}, atomic.Value{}, "demo"},
				buf:          make(chan []byte, bufSize),
				format:       "plain",
				codec:        "none",
				bufSize:      bufSize,
				flushMaxSize: flushMaxSize,
				flushMaxWait: time.Duration(flushMaxWait) * time.Millisecond,
			}
			go r.run()
			time.Sleep(time.Second)
			fmt.Println("FIXDEMO survived")
			os.Exit(0)
		}
	default:
		panic("unknown scenario " + scenario)
	}
	if err != nil {
		fmt.Println("FIXDEMO constructor refused:", err)
		os.Exit(0)
	}
	fmt.Println("FIXDEMO constructor accepted the configuration and started the route")
	time.Sleep(time.Second)
	fmt.Println("FIXDEMO survived")
	os.Exit(0)
}

func TestFixDemoRouteBadSettingsRejected(t *testing.T) {
	if scenario := os.Getenv("FIXDEMO_SCENARIO"); scenario != "" {
		fixDemoChild(scenario)
		return
	}
	for _, scenario := range fixDemoScenarios {
		cmd := exec.Command(os.Args[0], "-test.run=^TestFixDemoRouteBadSettingsRejected$")
		cmd.Env = append(os.Environ(), "FIXDEMO_SCENARIO="+scenario, "FIXDEMO_DIR="+t.TempDir())
		outBytes, err := cmd.CombinedOutput()
		out := string(outBytes)
		if i := strings.Index(out, "\ngoroutine "); i >= 0 {
			// keep the panic message and the first stack only
			rest := out[i+1:]
			if j := strings.Index(rest, "\n\n"); j >= 0 {
				out = out[:i+1] + rest[:j] + "\n[...]"
			}
		}
		switch {
		case err != nil:
			t.Errorf("scenario %q: process crashed (%v). output:\n%s", scenario, err, out)
		case !strings.Contains(out, "FIXDEMO constructor refused"):
			t.Errorf("scenario %q: configuration was not refused. output:\n%s", scenario, out)
		default:
			t.Logf("scenario %q: %s", scenario, strings.TrimSpace(out))
		}
	}
}
