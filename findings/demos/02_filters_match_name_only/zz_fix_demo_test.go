package table

import (
	"testing"
	"time"

	"github.com/grafana/carbon-relay-ng/destination"
	"github.com/grafana/carbon-relay-ng/matcher"
	"github.com/grafana/carbon-relay-ng/route"
	"github.com/grafana/carbon-relay-ng/stats"
	"github.com/grafana/carbon-relay-ng/validate"
)

// fixDemoRoute is a route that only records what it is asked to dispatch.
type fixDemoRoute struct {
	route.Route // nil; only the methods below are used by DispatchAggregate
	key         string
	m           matcher.Matcher
	got         []string
}

func (r *fixDemoRoute) Key() string         { return r.key }
func (r *fixDemoRoute) Match(s []byte) bool { return r.m.Match(s) }
func (r *fixDemoRoute) Dispatch(buf []byte) { r.got = append(r.got, string(buf)) }

func fixDemoMatcher(t *testing.T, sub, regex string) matcher.Matcher {
	m, err := matcher.New("", "", sub, "", regex, "")
	if err != nil {
		t.Fatal(err)
	}
	return m
}

// fixDemoDest returns a destination that has no listener (connection refused), without spool:
// every line that the route hands to it is counted in its conn_down_no_spool drop counter,
// which tells us how many lines passed the destination's filter.
func fixDemoDest(t *testing.T, routeKey, addr string, m matcher.Matcher) *destination.Destination {
	d, err := destination.New(routeKey, m, addr, "", false, false, time.Second, time.Minute, 30000, 2000000, 10000, 200*1024*1024, 10000, time.Second, 500*time.Microsecond, 10*time.Microsecond)
	if err != nil {
		t.Fatal(err)
	}
	return d
}

func fixDemoAccepted(d *destination.Destination) int64 {
	// Flush is handled by the same loop that reads dest.In, so once it returns
	// everything that was dispatched before has been accounted for.
	d.Flush()
	return stats.Counter("dest=" + d.Key + ".unit=Metric.action=drop.reason=conn_down_no_spool").Count()
}

// route filters in DispatchAggregate (output of aggregators)
func TestFixDemoFiltersApplyToMetricName_RouteFilterOnAggregates(t *testing.T) {
	cfg, err := NewTableConfig("", "24h", validate.LevelLegacy{}, validate.LevelM20{}, false)
	if err != nil {
		t.Fatal(err)
	}
	tab := New(cfg)
	counts := &fixDemoRoute{key: "counts", m: fixDemoMatcher(t, "", `\.count$`)}
	fives := &fixDemoRoute{key: "fives", m: fixDemoMatcher(t, "5", "")}
	tab.AddRoute(counts)
	tab.AddRoute(fives)

	tab.DispatchAggregate([]byte("agg.requests.count 12 1600000000"))
	tab.DispatchAggregate([]byte("agg.requests.sum 15 1600000000"))
	tab.DispatchAggregate([]byte("agg.host5.sum 1 1600000000"))

	if len(counts.got) != 1 || counts.got[0] != "agg.requests.count 12 1600000000" {
		t.Errorf(`route with regex=\.count$ should have received exactly the .count metric, got %q`, counts.got)
	}
	if len(fives.got) != 1 || fives.got[0] != "agg.host5.sum 1 1600000000" {
		t.Errorf(`route with sub=5 should have received exactly the host5 metric, got %q`, fives.got)
	}
}

// destination filters in sendAllMatch and sendFirstMatch routes
func TestFixDemoFiltersApplyToMetricName_DestinationFilter(t *testing.T) {
	// sendAllMatch
	dCount := fixDemoDest(t, "demoAll", "127.0.0.1:1", fixDemoMatcher(t, "", `\.count$`))
	rAll, err := route.NewSendAllMatch("demoAll", matcher.Matcher{}, []*destination.Destination{dCount})
	if err != nil {
		t.Fatal(err)
	}
	defer rAll.Shutdown()

	rAll.Dispatch([]byte("requests.count 12 1600000000")) // must match
	rAll.Dispatch([]byte("requests.sum 12 1600000000"))   // must not match
	if n := fixDemoAccepted(dCount); n != 1 {
		t.Errorf(`sendAllMatch: destination with regex=\.count$ should have accepted 1 of the 2 metrics, accepted %d`, n)
	}

	// sendFirstMatch
	dFive := fixDemoDest(t, "demoFirst", "127.0.0.1:1", fixDemoMatcher(t, "5", ""))
	dRest := fixDemoDest(t, "demoFirst", "127.0.0.2:1", matcher.Matcher{})
	rFirst, err := route.NewSendFirstMatch("demoFirst", matcher.Matcher{}, []*destination.Destination{dFive, dRest})
	if err != nil {
		t.Fatal(err)
	}
	defer rFirst.Shutdown()

	rFirst.Dispatch([]byte("host5.cpu 1 1600000000")) // -> dFive
	rFirst.Dispatch([]byte("host1.cpu 5 1600000000")) // -> dRest (the 5 is the value)
	rFirst.Dispatch([]byte("host2.cpu 1 1500000000")) // -> dRest (the 5 is in the timestamp)
	nFive, nRest := fixDemoAccepted(dFive), fixDemoAccepted(dRest)
	if nFive != 1 || nRest != 2 {
		t.Errorf("sendFirstMatch: destination with sub=5 should have accepted 1 metric and the catch-all 2; got %d and %d", nFive, nRest)
	}
}
