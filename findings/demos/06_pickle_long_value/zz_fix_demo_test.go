package input

import (
	"bytes"
	"encoding/binary"
	"testing"
)

type fixDemoDispatcher struct {
	lines   []string
	invalid int
}

func (d *fixDemoDispatcher) Dispatch(buf []byte) { d.lines = append(d.lines, string(buf)) }
func (d *fixDemoDispatcher) IncNumInvalid()      { d.invalid++ }

// TestFixDemoPickleLongIntegerValue feeds the pickle input what Python produces for
//
//	pickle.dumps([('a.b', (1600000000, 2**40))], protocol=2)
//
// Python encodes integers >= 2^31 with the LONG1 opcode, which the decoder returns as *big.Int.
// The text protocol equivalent 'a.b 1099511627776 1600000000' is a perfectly valid metric.
func TestFixDemoPickleLongIntegerValue(t *testing.T) {
	payload := []byte{
		0x80, 0x02, // PROTO 2
		0x5d, 0x71, 0x00, // EMPTY_LIST, BINPUT 0
		0x58, 0x03, 0x00, 0x00, 0x00, 'a', '.', 'b', 0x71, 0x01, // BINUNICODE 'a.b', BINPUT 1
		0x4a, 0x00, 0x10, 0x5e, 0x5f, // BININT 1600000000
		0x8a, 0x06, 0x00, 0x00, 0x00, 0x00, 0x00, 0x01, // LONG1 2**40
		0x86, 0x71, 0x02, // TUPLE2, BINPUT 2
		0x86, 0x71, 0x03, // TUPLE2, BINPUT 3
		0x61, 0x2e, // APPEND, STOP
	}
	var stream bytes.Buffer
	binary.Write(&stream, binary.BigEndian, uint32(len(payload)))
	stream.Write(payload)

	d := &fixDemoDispatcher{}
	if err := NewPickle(d).Handle(&stream); err != nil {
		t.Fatalf("Handle returned error: %s", err)
	}

	if d.invalid != 0 {
		t.Errorf("datapoint ('a.b', (1600000000, 2**40)) was counted as invalid")
	}
	if len(d.lines) != 1 || d.lines[0] != "a.b 1099511627776 1600000000" {
		t.Errorf("expected dispatch of %q, got %q", "a.b 1099511627776 1600000000", d.lines)
	}
}
