package nsqd

import (
	"io/ioutil"
	"os"
	"testing"
	"time"
)

func recv(t *testing.T, q BackendQueue, d time.Duration) (string, bool) {
	select {
	case m := <-q.ReadChan():
		return string(m), true
	case <-time.After(d):
		return "", false
	}
}

// crash leaves an un-synced tail behind the persisted write position; after the restart the
// reader's bufio read-ahead caches that tail, the writer overwrites it in the file, and the reader
// then hands out the cached stale bytes instead of what was enqueued after the restart.
func TestFixDemoStaleTailAfterCrash(t *testing.T) {
	dir, _ := ioutil.TempDir("", "dq")
	defer os.RemoveAll(dir)
	q := NewDiskQueue("q", dir, 1<<20, 1000000, time.Hour)
	q.Put([]byte("a-first-message"))
	q.Put([]byte("b-second-message"))
	q.Close() // persists write=(0,39) read=(0,0) depth 2
	// crash simulation: one more record was written but never synced
	dq := q.(*DiskQueue)
	f, err := os.OpenFile(dq.fileName(0), os.O_RDWR, 0600)
	if err != nil {
		t.Fatal(err)
	}
	st, _ := f.Stat()
	stale := []byte("STALE-UNSYNCED-RECORD-THAT-WAS-LOST-IN-THE-CRASH")
	hdr := []byte{0, 0, 0, byte(len(stale))}
	f.WriteAt(append(hdr, stale...), st.Size())
	f.Close()

	q2 := NewDiskQueue("q", dir, 1<<20, 1000000, time.Hour)
	defer q2.Close()
	if m, ok := recv(t, q2, time.Second); !ok || m != "a-first-message" {
		t.Fatalf("got %q %v", m, ok)
	}
	q2.Put([]byte("c-new"))
	q2.Put([]byte("d-new"))
	want := []string{"b-second-message", "c-new", "d-new"}
	for i, w := range want {
		m, ok := recv(t, q2, time.Second)
		if !ok || m != w {
			t.Fatalf("message %d: got %q (ok=%v), want %q", i, m, ok, w)
		}
	}
}
