#!/usr/bin/env python3
# replaces the seed table in DESIGN.md section 9 by /verif/seeded/MATRIX.md
import re
d=open('/verif/DESIGN.md').read()
m=open('/verif/seeded/MATRIX.md').read().rstrip('\n')
a=d.index('| seed | change | reported by |')
b=d.index('\nReverse check:',a)
open('/verif/DESIGN.md','w').write(d[:a]+m+'\n'+d[b:])
print('rows',m.count('\n')-1)
