#!/bin/bash
# usage: seed_matrix_par.sh <worktree>... — seed_matrix.py with the properties spread over several scratch worktrees
wts=("$@"); n=${#wts[@]}
tmp=$(mktemp -d)
props=(C01 C02 C03 C04 C05 C06 C07 C08 C09 C10 C11 C12 C13 C14 C15 C16 C17 C18 C19 C20)
for k in $(seq 0 $((n-1))); do
  re=""
  for i in "${!props[@]}"; do [ $((i % n)) = $k ] && re="$re|^${props[$i]}_"; done
  ( SEED_ONLY="${re#|}" SEED_OUT=$tmp/rows_$k python3 /verif/tools/seed_matrix.py "${wts[$k]}" > $tmp/log_$k 2>&1 ) &
done
wait
{ echo '| seed | change | reported by |'; echo '|---|---|---|'; cat $tmp/rows_* | sort; } > /verif/seeded/MATRIX.md
cat $tmp/log_* | sort
rm -rf $tmp
