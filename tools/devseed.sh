#!/bin/bash
# usage: devseed.sh <patch.diff> <worktree> [properties...] — like seedtest.sh but against a separate scratch worktree (not /repo)
patch="$1"; wt="$2"; shift 2
props="$@"; [ -z "$props" ] && props="C01 C02 C03 C04 C05 C06 C07 C08 C09 C10 C11 C12 C13 C14 C15 C16 C17 C18 C19 C20"
out=/tmp/devseed_out_$$; mkdir -p $out && cp /verif/known_findings.txt $out/
cd "$wt" || exit 2
git checkout -q -- . ; git clean -fdq; git apply "$patch" || { echo "patch does not apply"; exit 2; }
res=""
for p in $props; do
  o=$(cd /verif && VERIF_DIR=$out ${CRNG_BIN:-./bin/crngcheck} check -property $p -repo "$wt" 2>&1)
  if echo "$o" | grep -q "^VIOLATION"; then
    res="$res $p"
    [ -n "$VERBOSE" ] && echo "$o" | grep -B1 "^VIOLATION" | grep -v "^VIOLATION\|^--" | head -3 | cut -c1-260 | sed "s/^/   $p: /"
  fi
done
git checkout -q -- . ; git clean -fdq
rm -rf $out
echo "ALARMS:${res:- none}"
