#!/bin/bash
# usage: benign_par.sh <worktree>... — like benign_all.sh, with the patches spread over several
# scratch worktrees of /repo that are checked in parallel. Exit 0 iff every patch is silent.
wts=("$@"); n=${#wts[@]}; i=0
tmp=$(mktemp -d)
for f in /verif/benign/*.diff; do echo "$f" >> $tmp/list_$((i % n)); i=$((i+1)); done
for k in $(seq 0 $((n-1))); do
  ( while read f; do r=$(/verif/tools/devseed.sh "$f" "${wts[$k]}" | tail -1); echo "$(basename $f) $r"; done < $tmp/list_$k > $tmp/out_$k ) &
done
wait
cat $tmp/out_* | sort
bad=$(cat $tmp/out_* | grep -vc "ALARMS: none")
rm -rf $tmp
[ "$bad" = 0 ]
