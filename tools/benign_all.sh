#!/bin/bash
# usage: benign_all.sh <scratch worktree of /repo> — every behaviour-preserving patch under /verif/benign
# must leave all 20 quick checks silent.
wt="$1"; bad=0
for f in /verif/benign/*.diff; do
  r=$(/verif/tools/devseed.sh "$f" "$wt" | tail -1)
  echo "$(basename $f) $r"
  [ "$r" = "ALARMS: none" ] || bad=1
done
exit $bad
