#!/bin/bash
# usage: verify_seed.sh <seed-out-dir> [worktree]
# Confirms independently: (i) suite passes with patch, (ii) demo fails with patch, (iii) demo passes without patch.
# prints one summary line: <dir> suite=PASS|FAIL demo_with=FAIL|PASS demo_without=PASS|FAIL
export GOFLAGS=-mod=mod GOPROXY=off GOSUMDB=off GOTOOLCHAIN=local
d="$1"; wt="${2:-/tmp/seedverify_$$}"
own=0
if [ ! -d "$wt" ]; then git -C /repo worktree add -q --detach "$wt" HEAD || exit 2; own=1; fi
cd "$wt" && git checkout -q -- . && git clean -fdq
# demo placement: lines in DEMO_PATH.txt that look like paths ending in _test.go
demos=$(grep -oE '[A-Za-z0-9_.-]+(/[A-Za-z0-9_.-]+)+_test\.go' "$d/DEMO_PATH.txt" | grep -v '^/' | sort -u)
runcmd=$(grep -oE 'go test [^`]*' "$d/DEMO_PATH.txt" | head -1)
place() { for p in $demos; do b=$(basename $p); src="$d/$b"; [ -f "$src" ] || src=$(ls $d/*_test.go | head -1); mkdir -p $(dirname $p); cp "$src" "$p"; done; }
git apply "$d/patch.diff" || { echo "$d patch-does-not-apply"; exit 1; }
if go build ./... >/dev/null 2>&1 && go test -vet=off -count=1 ./... >/tmp/vs_suite_$$.txt 2>&1; then suite=PASS; else suite=FAIL; fi
place
if timeout 300 $runcmd >/tmp/vs_with_$$.txt 2>&1; then with=PASS; else with=FAIL; fi
git checkout -q -- . ; place
if timeout 300 $runcmd >/tmp/vs_without_$$.txt 2>&1; then without=PASS; else without=FAIL; fi
echo "$d suite=$suite demo_with=$with demo_without=$without cmd=[$runcmd]"
git checkout -q -- . ; git clean -fdq
rm -f /tmp/vs_*_$$.txt
if [ $own = 1 ]; then cd /; git -C /repo worktree remove --force "$wt"; fi
