#!/bin/bash
# usage: alltest.sh <patch.diff> — applies the patch to /repo, runs all 20 quick checks, reverts; prints the properties that raise an alarm
patch="$1"
mkdir -p /tmp/seedtest_out && cp /verif/known_findings.txt /tmp/seedtest_out/
cd /repo || exit 2
if ! git diff --quiet; then echo "repo dirty"; exit 2; fi
git apply "$patch" || { echo "patch does not apply"; exit 2; }
res=""
for i in 01 02 03 04 05 06 07 08 09 10 11 12 13 14 15 16 17 18 19 20; do
  out=$(cd /verif && VERIF_DIR=/tmp/seedtest_out ./bin/crngcheck check -property C$i 2>&1)
  if echo "$out" | grep -q "^VIOLATION"; then
    res="$res C$i"
    echo "$out" | grep -B1 "^VIOLATION" | grep -v "^VIOLATION\|^--" | head -4 | cut -c1-300 | sed "s/^/   C$i: /"
  fi
done
git checkout -- .
echo "ALARMS:${res:- none}"
