#!/usr/bin/env python3
# usage: keep_seeds.py <verify_result_file>... — copies verified seeds from /tmp/seed/out into /verif/seeded/<id>_<variant>/
import sys, os, re, json, shutil, glob
for vf in sys.argv[1:]:
    for line in open(vf):
        m = re.match(r'(/tmp/seed[3456]?/out2?/(C\d+)/([a-q])) suite=(\w+) demo_with=(\w+) demo_without=(\w+) cmd=\[(.*)\]', line.strip())
        if not m:
            print("skip:", line.strip()); continue
        d, prop, var, suite, dw, dwo, cmd = m.groups()
        if not (suite == 'PASS' and dw == 'FAIL' and dwo == 'PASS'):
            print("NOT CONFIRMED:", line.strip()); continue
        out = f'/verif/seeded/{prop}_{var}'
        os.makedirs(out, exist_ok=True)
        shutil.copy(f'{d}/patch.diff', out)
        demos = []
        for f in glob.glob(f'{d}/*_test.go'):
            # keep demos under a non-_test.go name so that nothing ever compiles them by accident
            dst = os.path.join(out, os.path.basename(f) + '.txt')
            shutil.copy(f, dst); demos.append(os.path.basename(dst))
        for f in ('notes.md', 'DEMO_PATH.txt'):
            if os.path.exists(f'{d}/{f}'): shutil.copy(f'{d}/{f}', out)
        notes = open(f'{d}/notes.md').read() if os.path.exists(f'{d}/notes.md') else ''
        demo_paths = re.findall(r'[A-Za-z0-9_.-]+(?:/[A-Za-z0-9_.-]+)+_test\.go', open(f'{d}/DEMO_PATH.txt').read())
        demo_paths = sorted(set(p for p in demo_paths if not p.startswith('/')))
        meta = {
            'property': prop, 'variant': var,
            'origin': 'written by an independent sub-agent that saw only the property text and a scratch worktree of /repo',
            'patch': 'patch.diff (git apply at the repo root; never committed to /repo)',
            'demo_files': demos, 'demo_place_at': demo_paths, 'demo_cmd': cmd,
            'needs_to_manifest': (re.search(r'(?is)(needs?[^\n]*\n(?:.*\n){0,6})', notes) or [None, ''])[1].strip()[:900] if notes else '',
            'confirmed_by_me': {'worktree': 'scratch worktree of /repo HEAD (removed afterwards)', 'suite_with_patch': suite, 'demo_with_patch': dw, 'demo_without_patch': dwo,
                                 'commands': ['git apply patch.diff', 'go build ./... && go test -vet=off -count=1 ./...', cmd, 'git checkout -- . ; ' + cmd]},
        }
        json.dump(meta, open(os.path.join(out, 'meta.json'), 'w'), indent=1)
        print("kept", out)
