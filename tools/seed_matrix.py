#!/usr/bin/env python3
# usage: seed_matrix.py <scratch worktree of /repo> [all]
# For every kept seed: apply it to the scratch worktree, run the quick check of its own property
# (with "all": of all 20 properties), collect the rules that report a violation, revert.
# Writes /verif/seeded/MATRIX.md.
import sys, os, re, json, subprocess, glob, shutil, tempfile
wt = sys.argv[1]
allprops = len(sys.argv) > 2 and sys.argv[2] == 'all'
# optional: SEED_ONLY=<regex over seed names> restricts the run, SEED_OUT=<file> receives the table rows
# (several instances on different worktrees can then share the work; rows are merged by seed_matrix_par.sh)
only = os.environ.get('SEED_ONLY')
outfile = os.environ.get('SEED_OUT', '/verif/seeded/MATRIX.md')
props = ['C%02d' % i for i in range(1, 21)]
out = tempfile.mkdtemp(prefix='seedmatrix_')
shutil.copy('/verif/known_findings.txt', out)
rows = []
for d in sorted(glob.glob('/verif/seeded/C*_*')):
    name = os.path.basename(d)
    own = name.split('_')[0]
    if only and not re.search(only, name):
        continue
    subprocess.run(['git', '-C', wt, 'checkout', '-q', '--', '.'], check=True)
    r = subprocess.run(['git', '-C', wt, 'apply', d + '/patch.diff'], capture_output=True, text=True)
    if r.returncode != 0:
        rows.append((name, 'PATCH DOES NOT APPLY', ''))
        continue
    caught = {}
    for p in (props if allprops else [own]):
        env = dict(os.environ, VERIF_DIR=out)
        r2 = subprocess.run([os.environ.get('CRNG_BIN','/verif/bin/crngcheck'), 'check', '-property', p, '-repo', wt], capture_output=True, text=True, env=env, cwd='/verif')
        rules = sorted(set(re.findall(r': (?:violated|undecided) \[(C\d+\.R\d+)\]', r2.stdout + r2.stderr)))
        if rules:
            caught[p] = rules
    subprocess.run(['git', '-C', wt, 'checkout', '-q', '--', '.'], check=True)
    title = ''
    try:
        title = open(d + '/notes.md').readline().strip().lstrip('# ').strip()
    except Exception:
        pass
    ownr = ', '.join(caught.get(own, [])) or '**not caught**'
    other = '; '.join(f"{', '.join(v)}" for k, v in caught.items() if k != own)
    rows.append((name, title, ownr + (' · also ' + other if other else '')))
    print(name, ownr, other, flush=True)
with open(outfile, 'w') as f:
    if not only:
        f.write('| seed | change | reported by |\n|---|---|---|\n')
    for r in rows:
        f.write('| %s | %s | %s |\n' % (r[0], r[1].replace('|', '/'), r[2]))
shutil.rmtree(out)
