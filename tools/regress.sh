#!/bin/bash
# usage: regress.sh <crngcheck binary> <scratch worktree of /repo> <property>...
# For each property: every seeded change of that property must raise an alarm from that property's
# check, and every behaviour-preserving patch under /verif/benign must leave it silent.
# Prints only the unexpected outcomes and a summary line; exit 0 iff none.
bin="$1"; wt="$2"; shift 2
vd=$(cd "$(dirname "$0")/.." && pwd)
bad=0; n=0
for p in "$@"; do
  for d in $vd/seeded/${p}_*; do
    [ -f $d/patch.diff ] || continue
    n=$((n+1))
    r=$(CRNG_BIN=$bin $vd/tools/devseed.sh $d/patch.diff "$wt" $p 2>/dev/null | tail -1)
    case "$r" in *"ALARMS: $p"*) ;; *) echo "MISSED seed $(basename $d) by $p: $r"; bad=$((bad+1));; esac
  done
  for f in $vd/benign/*.diff; do
    n=$((n+1))
    r=$(CRNG_BIN=$bin $vd/tools/devseed.sh $f "$wt" $p 2>/dev/null | tail -1)
    case "$r" in *"ALARMS: none"*) ;; *) echo "FALSE ALARM benign $(basename $f) by $p: $r"; bad=$((bad+1));; esac
  done
done
echo "regress: $n runs, $bad unexpected"
[ $bad = 0 ]
