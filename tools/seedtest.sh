#!/bin/bash
# usage: seedtest.sh <patch.diff> <property>...   — applies the patch to /repo, runs the checks, reverts.
# prints for each property: CAUGHT / MISSED
patch="$1"; shift
mkdir -p /tmp/seedtest_out && cp /verif/known_findings.txt /tmp/seedtest_out/; cd /repo || exit 2
if ! git diff --quiet; then echo "repo dirty"; exit 2; fi
git apply "$patch" || { echo "patch does not apply"; exit 2; }
for p in "$@"; do
  out=$(cd /verif && VERIF_DIR=/tmp/seedtest_out ./bin/crngcheck check -property "$p" 2>&1)
  if echo "$out" | grep -q "^VIOLATION"; then
    echo "$p CAUGHT: $(echo "$out" | grep -B1 '^VIOLATION' | grep -v '^VIOLATION' | grep -v '^--' | head -3 | cut -c1-260)"
  else
    echo "$p MISSED"
  fi
done
git checkout -- .
