#!/bin/bash
# runs every kept seed against the check of its own property; prints CAUGHT/MISSED per seed
cd /verif
for d in seeded/*/; do
  s=$(basename $d); p=${s%%_*}
  r=$(tools/seedtest.sh /verif/seeded/$s/patch.diff $p 2>&1 | head -1 | cut -c1-160)
  echo "$s $r"
done
